"""MIR-level inlining of private helper functions (a normal form for the rules).

Extracting a few statements into a private helper, or folding a helper back into its caller,
does not change behaviour; rules that look at one body (patterns over def-use terms, dominance,
abstract interpretation) should therefore see the same thing either way.  `inlined(fx, path, pred)`
returns a Body in which every call to a local function accepted by `pred` has been replaced by a
copy of the callee's blocks (locals and blocks renumbered, arguments bound by assignments, `return`
turned into an assignment of the destination and a jump to the call's successor), recursively up to
a small depth.  Nothing is evaluated."""
import copy

from facts import Body, callee


def _rename(node, loff, boff, in_term=False):
    """Deep-copy `node` adding `loff` to every local number (places and index projections)."""
    if isinstance(node, dict):
        if 'l' in node and 'p' in node and len(node) == 2:
            return {'l': node['l'] + loff, 'p': [_rename_proj(e, loff) for e in node['p']]}
        return {k: _rename(v, loff, boff) for k, v in node.items()}
    if isinstance(node, list):
        return [_rename(v, loff, boff) for v in node]
    return node


def _rename_proj(e, loff):
    if isinstance(e, list) and e and e[0] == 'i':
        return ['i', e[1] + loff] + list(e[2:])
    return copy.deepcopy(e)


def _retarget(term, boff):
    t = term
    for k in ('target', 'otherwise', 'unwind'):
        if t.get(k) is not None and isinstance(t.get(k), int):
            t[k] = t[k] + boff
    if 'targets' in t:
        t['targets'] = [[v, b + boff] for v, b in t['targets']]
    return t


def is_private_helper(fx, p):
    """Local, has MIR, not reachable from the public API by name, not a trait-impl method."""
    f = fx.fn(p)
    if f is None or 'mir' not in f or f.get('kind') not in ('Fn', 'AssocFn'):
        return False
    if f.get('reachable_pub') or f.get('impl_trait'):
        return False
    return True


def inlined(fx, path, pred, depth=3, _stack=()):
    key = ('inl', path, id(pred), depth)
    cache = fx.__dict__.setdefault('_inl_cache', {})
    if key in cache:
        return cache[key]
    f = fx.fn(path)
    if f is None or 'mir' not in f:
        return None
    mir = copy.deepcopy(f['mir'])
    blocks = mir['blocks']
    locals_ = mir['locals']
    n_inl = 0
    bi = 0
    while bi < len(blocks):
        t = blocks[bi]['term']
        if t['k'] == 'call' and depth > 0 and n_inl < 64:
            c = callee(t)
            res = c.get('res') if c else None
            if c and c.get('res_local') and res and res != path and res not in _stack and pred(res) and (fx.fn(res) or {}).get('mir'):
                sub = inlined(fx, res, pred, depth - 1, _stack + (path,))
                cm = sub.mir if sub is not None else fx.fn(res)['mir']
                if len(t['args']) == cm['arg_count']:
                    loff = len(locals_)
                    boff = len(blocks)
                    locals_.extend(copy.deepcopy(cm['locals']))
                    for d in cm.get('debug', []):
                        d2 = copy.deepcopy(d)
                        d2['arg'] = None
                        if isinstance(d2.get('val'), dict) and 'l' in d2['val']:
                            d2['val'] = _rename(d2['val'], loff, 0)
                        mir['debug'].append(d2)
                    for cb in cm['blocks']:
                        nb = {'stmts': _rename(cb['stmts'], loff, boff), 'cleanup': cb.get('cleanup', False)}
                        ct = _rename(cb['term'], loff, boff)
                        _retarget(ct, boff)
                        if ct['k'] == 'return':
                            nb['stmts'].append({'k': 'assign', 'place': copy.deepcopy(t['dest']),
                                                'rv': {'k': 'use', 'op': ['m', {'l': loff, 'p': []}]}, 'span': t['span']})
                            if t.get('target') is not None:
                                ct = {'k': 'goto', 'target': t['target'], 'span': t['span']}
                            else:
                                ct = {'k': 'unreachable', 'span': t['span']}
                        nb['term'] = ct
                        blocks.append(nb)
                    for i, a in enumerate(t['args']):
                        blocks[bi]['stmts'].append({'k': 'assign', 'place': {'l': loff + 1 + i, 'p': []},
                                                    'rv': {'k': 'use', 'op': copy.deepcopy(a)}, 'span': t['span']})
                    blocks[bi]['term'] = {'k': 'goto', 'target': boff, 'span': t['span']}
                    n_inl += 1
        bi += 1
    b = Body(fx, path, mir, f)
    b.inlined_calls = n_inl
    cache[key] = b
    return b

"""MIR-level inlining of private helper functions (a normal form for the rules).

Extracting a few statements into a private helper, or folding a helper back into its caller,
does not change behaviour; rules that look at one body (patterns over def-use terms, dominance,
abstract interpretation) should therefore see the same thing either way.  `inlined(fx, path, pred)`
returns a Body in which every call to a local function accepted by `pred` has been replaced by a
copy of the callee's blocks (locals and blocks renumbered, arguments bound by assignments, `return`
turned into an assignment of the destination and a jump to the call's successor), recursively up to
a small depth.  Nothing is evaluated."""
import copy

from facts import Body, callee


def _rename(node, loff, boff, in_term=False):
    """Deep-copy `node` adding `loff` to every local number (places and index projections)."""
    if isinstance(node, dict):
        if 'l' in node and 'p' in node and len(node) == 2:
            return {'l': node['l'] + loff, 'p': [_rename_proj(e, loff) for e in node['p']]}
        return {k: _rename(v, loff, boff) for k, v in node.items()}
    if isinstance(node, list):
        return [_rename(v, loff, boff) for v in node]
    return node


def _rename_proj(e, loff):
    if isinstance(e, list) and e and e[0] == 'i':
        return ['i', e[1] + loff] + list(e[2:])
    return copy.deepcopy(e)


def _retarget(term, boff):
    t = term
    for k in ('target', 'otherwise', 'unwind'):
        if t.get(k) is not None and isinstance(t.get(k), int):
            t[k] = t[k] + boff
    if 'targets' in t:
        t['targets'] = [[v, b + boff] for v, b in t['targets']]
    return t


def is_private_helper(fx, p):
    """Local, has MIR, not reachable from the public API by name, not a trait-impl method."""
    f = fx.fn(p)
    if f is None or 'mir' not in f or f.get('kind') not in ('Fn', 'AssocFn'):
        return False
    if f.get('reachable_pub'):
        return False
    if f.get('impl_trait'):
        # the method of the only impl of a crate-private trait is a helper in trait clothing
        return unique_private_impl_method(fx, f['impl_trait'], f.get('name')) == p
    return True


def unique_private_impl_method(fx, trait, name):
    """def-path of method `name` when `trait` is crate-private and has exactly one impl in the crate, else None."""
    t = fx.traits.get(trait)
    if t is None or not str(t.get('vis', 'Public')).startswith('Restricted'):
        return None
    impls = fx.impls_of(trait)
    if len(impls) != 1:
        return None
    cands = [it['def'] for it in impls[0]['items'] if it['name'] == name]
    return cands[0] if len(cands) == 1 and fx.body(cands[0]) is not None else None


def inlined(fx, path, pred, depth=3, _stack=()):
    key = ('inl', path, id(pred), depth)
    cache = fx.__dict__.setdefault('_inl_cache', {})
    if key in cache:
        return cache[key]
    f = fx.fn(path)
    if f is None or 'mir' not in f:
        return None
    mir = copy.deepcopy(f['mir'])
    blocks = mir['blocks']
    locals_ = mir['locals']
    n_inl = 0
    bi = 0
    while bi < len(blocks):
        t = blocks[bi]['term']
        if t['k'] == 'call' and depth > 0 and n_inl < 64:
            c = callee(t)
            res = c.get('res') if c else None
            if c and c.get('res_local') and res and res != path and res not in _stack and pred(res) and (fx.fn(res) or {}).get('mir'):
                sub = inlined(fx, res, pred, depth - 1, _stack + (path,))
                cm = sub.mir if sub is not None else fx.fn(res)['mir']
                if len(t['args']) == cm['arg_count']:
                    loff = len(locals_)
                    boff = len(blocks)
                    locals_.extend(copy.deepcopy(cm['locals']))
                    for d in cm.get('debug', []):
                        d2 = copy.deepcopy(d)
                        d2['arg'] = None
                        if isinstance(d2.get('val'), dict) and 'l' in d2['val']:
                            d2['val'] = _rename(d2['val'], loff, 0)
                        mir['debug'].append(d2)
                    for cb in cm['blocks']:
                        nb = {'stmts': _rename(cb['stmts'], loff, boff), 'cleanup': cb.get('cleanup', False)}
                        ct = _rename(cb['term'], loff, boff)
                        _retarget(ct, boff)
                        if ct['k'] == 'return':
                            nb['stmts'].append({'k': 'assign', 'place': copy.deepcopy(t['dest']),
                                                'rv': {'k': 'use', 'op': ['m', {'l': loff, 'p': []}]}, 'span': t['span']})
                            if t.get('target') is not None:
                                ct = {'k': 'goto', 'target': t['target'], 'span': t['span']}
                            else:
                                ct = {'k': 'unreachable', 'span': t['span']}
                        nb['term'] = ct
                        blocks.append(nb)
                    for i, a in enumerate(t['args']):
                        blocks[bi]['stmts'].append({'k': 'assign', 'place': {'l': loff + 1 + i, 'p': []},
                                                    'rv': {'k': 'use', 'op': copy.deepcopy(a)}, 'span': t['span']})
                    blocks[bi]['term'] = {'k': 'goto', 'target': boff, 'span': t['span']}
                    n_inl += 1
        bi += 1
    if n_inl:
        forward_refs(mir)
    b = Body(fx, path, mir, f)
    b.inlined_calls = n_inl
    cache[key] = b
    return b


def forward_refs(mir):
    """After inlining, a helper's `&mut x` parameter is a single-assignment local holding `&mut caller_local`.
    Rewrite every `(*param).rest` into `caller_local.rest` so that def-use analyses see the caller's variable
    being read and written directly (what the code was before the helper was extracted).  Only references to
    places made of a local and field projections are forwarded (such a place denotes the same memory everywhere)."""
    nloc = len(mir['locals'])
    defs = [[] for _ in range(nloc)]
    for b in mir['blocks']:
        for st in b['stmts']:
            if st['k'] == 'assign' and not st['place']['p']:
                defs[st['place']['l']].append(st['rv'])
        t = b['term']
        if t['k'] == 'call' and not t['dest']['p']:
            defs[t['dest']['l']].append(None)
    argc = mir['arg_count']

    def target(l, depth=0):
        if depth > 8 or l <= argc or len(defs[l]) != 1 or defs[l][0] is None:
            return None
        rv = defs[l][0]
        if rv['k'] == 'ref':
            pl = rv['place']
            if all(e[0] == 'f' for e in pl['p']):
                return pl
            if pl['p'] and pl['p'][0][0] == 'deref' and all(e[0] == 'f' for e in pl['p'][1:]):
                base = target(pl['l'], depth + 1)
                if base is not None:
                    return {'l': base['l'], 'p': list(base['p']) + list(pl['p'][1:])}
            return None
        if rv['k'] == 'use' and rv['op'][0] in ('m', 'c') and not rv['op'][1]['p']:
            return target(rv['op'][1]['l'], depth + 1)
        return None
    fwd = {}
    for l in range(argc + 1, nloc):
        tg = target(l)
        if tg is not None:
            fwd[l] = tg

    def walk(node):
        if isinstance(node, dict):
            if 'l' in node and 'p' in node and len(node) == 2:
                if node['l'] in fwd and node['p'] and node['p'][0][0] == 'deref':
                    tg = fwd[node['l']]
                    node['p'] = [list(e) for e in tg['p']] + node['p'][1:]
                    node['l'] = tg['l']
                for e in node['p']:
                    pass
                return
            for v in node.values():
                walk(v)
        elif isinstance(node, list):
            for v in node:
                walk(v)
    for b in mir['blocks']:
        for st in b['stmts']:
            # do not rewrite the defining statements of the forwarded references themselves
            walk(st.get('place'))
            rv = st.get('rv')
            if rv is not None and not (st['k'] == 'assign' and not st['place']['p'] and st['place']['l'] in fwd and rv['k'] == 'ref'):
                walk(rv)
        walk(b['term'])

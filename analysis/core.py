"""Check infrastructure: building the fact file from /repo's current tree, obligation
bookkeeping, known-findings matching, evidence and replay files."""
import hashlib
import json
import os
import shutil
import subprocess
import sys
import tempfile
import time

VERIF = os.path.dirname(os.path.dirname(os.path.abspath(__file__)))
REPO = os.environ.get('VERIF_REPO', '/repo')
DRIVER = os.path.join(VERIF, 'driver', 'target', 'debug', 'ppfacts')
CACHE = os.path.join(VERIF, '.cache')
EVDIR = os.environ.get('VERIF_EVIDENCE_DIR') or os.path.join(VERIF, 'evidence')


class Infra(Exception):
    """Infrastructure failure: no verdict (exit 2)."""


def _sysroot():
    return subprocess.check_output(['rustc', '+nightly', '--print', 'sysroot'], text=True).strip()


def repo_tree_hash(repo=None):
    """Hash of everything the build of the library reads: src/**, Cargo.toml, Cargo.lock."""
    repo = repo or REPO
    h = hashlib.sha256()
    files = []
    for root, dirs, fs in os.walk(os.path.join(repo, 'src')):
        dirs.sort()
        for f in sorted(fs):
            files.append(os.path.join(root, f))
    for f in ('Cargo.toml', 'Cargo.lock', 'build.rs'):
        p = os.path.join(repo, f)
        if os.path.exists(p):
            files.append(p)
    cfg = os.path.join(repo, '.cargo')
    if os.path.isdir(cfg):
        for root, dirs, fs in os.walk(cfg):
            for f in sorted(fs):
                files.append(os.path.join(root, f))
    for p in files:
        h.update(os.path.relpath(p, repo).encode())
        h.update(b'\0')
        with open(p, 'rb') as fh:
            h.update(fh.read())
        h.update(b'\0')
    return h.hexdigest()


def ensure_driver():
    srcs = [os.path.join(VERIF, 'driver', 'src', 'main.rs'), os.path.join(VERIF, 'driver', 'Cargo.toml')]
    stale = not os.path.exists(DRIVER) or any(os.path.getmtime(x) > os.path.getmtime(DRIVER) for x in srcs if os.path.exists(x))
    if stale:
        r = subprocess.run(['cargo', 'build', '--offline'], cwd=os.path.join(VERIF, 'driver'),
                           stdout=subprocess.PIPE, stderr=subprocess.STDOUT, text=True)
        if r.returncode != 0 or not os.path.exists(DRIVER):
            raise Infra('cannot build the ppfacts driver:\n' + r.stdout[-3000:])
    return DRIVER


def build_facts(profile='dev', repo=None, crates='pairing_plus', all_deps=False, use_cache=True):
    """Run the ppfacts driver over `repo`'s current working tree with the real build's
    flags (cargo check of the lib target) and return the directory holding the fact
    files.  A fresh CARGO_TARGET_DIR is used every time so cargo's freshness cache can
    never replay an old result; results are cached only under the content hash of the
    tree + driver + profile."""
    repo = repo or REPO
    drv = ensure_driver()
    with open(drv, 'rb') as f:
        dh = hashlib.sha256(f.read()).hexdigest()[:16]
    key = hashlib.sha256(('%s|%s|%s|%s|%s' % (repo_tree_hash(repo), dh, profile, crates, all_deps)).encode()).hexdigest()[:32]
    outdir = os.path.join(CACHE, 'facts', key)
    main = os.path.join(outdir, 'pairing_plus.json')
    if use_cache and os.environ.get('VERIF_NO_CACHE') != '1' and os.path.exists(main):
        return outdir
    tmp = tempfile.mkdtemp(prefix='ppfacts.')
    try:
        out = os.path.join(tmp, 'out')
        os.makedirs(out)
        env = dict(os.environ)
        env['LD_LIBRARY_PATH'] = os.path.join(_sysroot(), 'lib') + ':' + env.get('LD_LIBRARY_PATH', '')
        env['RUSTFLAGS'] = '-Zmir-opt-level=0 -Awarnings'
        env['CARGO_TARGET_DIR'] = os.path.join(tmp, 'target')
        env['CARGO_NET_OFFLINE'] = 'true'
        env['PPFACTS_OUT'] = out
        env['PPFACTS_CRATE'] = crates
        env.pop('RUSTC_WRAPPER', None)
        env.pop('RUSTC_WORKSPACE_WRAPPER', None)
        if all_deps:
            env['RUSTC_WRAPPER'] = drv
        else:
            env['RUSTC_WORKSPACE_WRAPPER'] = drv
        cmd = ['cargo', '+nightly', 'check', '--offline', '--lib']
        if profile == 'release':
            cmd.append('--release')
        t0 = time.time()
        r = subprocess.run(cmd, cwd=repo, env=env, stdout=subprocess.PIPE, stderr=subprocess.STDOUT, text=True)
        if r.returncode != 0:
            raise Infra('cargo check of %s failed (the tree does not compile?):\n%s' % (repo, r.stdout[-4000:]))
        produced = os.path.join(out, 'pairing_plus.json')
        if not os.path.exists(produced) or os.path.getmtime(produced) < t0 - 1:
            raise Infra('driver did not produce a fresh fact file for pairing_plus')
        os.makedirs(os.path.dirname(outdir), exist_ok=True)
        staging = outdir + '.staging%d' % os.getpid()
        shutil.rmtree(staging, ignore_errors=True)
        shutil.copytree(out, staging)
        if os.path.exists(outdir):
            shutil.rmtree(outdir, ignore_errors=True)
        try:
            os.rename(staging, outdir)
        except OSError:
            shutil.rmtree(staging, ignore_errors=True)
    finally:
        shutil.rmtree(tmp, ignore_errors=True)
    # keep the cache small: at most 12 entries
    try:
        base = os.path.join(CACHE, 'facts')
        ents = sorted((os.path.getmtime(os.path.join(base, e)), e) for e in os.listdir(base))
        for _, e in ents[:-12]:
            shutil.rmtree(os.path.join(base, e), ignore_errors=True)
    except OSError:
        pass
    return outdir


# ---------------------------------------------------------------- obligations
class Report:
    def __init__(self, prop):
        self.prop = prop
        self.obligations = []   # dicts
        self.analysed = {'functions': set(), 'call_sites': 0, 'constants': set()}
        self.notes = []

    def fn(self, path):
        self.analysed['functions'].add(path)

    def const(self, path):
        self.analysed['constants'].add(path)

    def sites(self, n=1):
        self.analysed['call_sites'] += n

    def ok(self, rule, instance, detail='', where=None):
        self.obligations.append({'rule': rule, 'instance': instance, 'status': 'holds',
                                 'detail': detail, 'where': where})

    def fail(self, rule, instance, detail, where=None, construct=None):
        self.obligations.append({'rule': rule, 'instance': instance, 'status': 'violated',
                                 'detail': detail, 'where': where, 'construct': construct})

    def check(self, cond, rule, instance, detail_ok='', detail_fail='', where=None, construct=None):
        if cond:
            self.ok(rule, instance, detail_ok, where)
        else:
            self.fail(rule, instance, detail_fail or detail_ok, where, construct)
        return cond

    def floor(self, rule, what, count, minimum):
        """Fail closed when a rule matched fewer instances than were counted by hand."""
        self.check(count >= minimum, rule, 'floor:' + what,
                   '%d instances (floor %d)' % (count, minimum),
                   'only %d instances of %s found, expected at least %d: the anchor moved out of the analysable fragment' % (count, what, minimum))

    def violations(self):
        return [o for o in self.obligations if o['status'] == 'violated']


def vkey(prop, o):
    return '%s|%s|%s' % (prop, o['rule'], o['instance'])


def load_known():
    p = os.path.join(VERIF, 'known_findings.json')
    if not os.path.exists(p):
        return []
    with open(p) as f:
        return json.load(f)['findings']


def finish(rep, tier, level, t0, explanation, trusted_base, assumptions, samples=None, extra=None, checker_cmd=None):
    """Match violations against known findings, write evidence + replay files, print the
    protocol lines and return the exit code."""
    prop = rep.prop
    known = {k['key']: k for k in load_known() if k.get('status') == 'known' and k['property'] == prop}
    viol = rep.violations()
    unlisted = []
    for o in viol:
        k = vkey(prop, o)
        if k in known:
            print('KNOWN-FINDING: property=%s %s' % (prop, known[k]['what']))
        else:
            unlisted.append(o)
    os.makedirs(os.path.join(EVDIR, 'replay'), exist_ok=True)
    n_obl = len(rep.obligations)
    n_ok = sum(1 for o in rep.obligations if o['status'] == 'holds')
    if samples is None:
        samples = []
        seen_rules = set()
        for o in rep.obligations:
            if o['rule'] not in seen_rules:
                seen_rules.add(o['rule'])
                samples.append({k: o[k] for k in ('rule', 'instance', 'status', 'detail', 'where')})
    cov = {
        'explanation': explanation,
        'obligations': n_obl,
        'discharged': n_ok,
        'checker_cmd': checker_cmd or ('./check %s --tier %s' % (prop, tier)),
        'trusted_base': trusted_base,
        'samples': samples[:40],
        'rules': sorted(set(o['rule'] for o in rep.obligations)),
        'functions_analysed': sorted(rep.analysed['functions']),
        'functions_analysed_count': len(rep.analysed['functions']),
        'call_sites_examined': rep.analysed['call_sites'],
        'constants_examined': sorted(rep.analysed['constants']),
        'repo_tree_sha256': repo_tree_hash(),
        'all_obligations': [{k: o.get(k) for k in ('rule', 'instance', 'status', 'where')} for o in rep.obligations],
        'notes': rep.notes,
    }
    if extra:
        cov.update(extra)
    ev = {
        'property_id': prop,
        'tier': tier,
        'seed': int(os.environ.get('VERIF_SEED', '0') or 0),
        'level': level,
        'coverage': cov,
        'assumptions': assumptions,
        'wall_s': round(time.time() - t0, 2),
        'violations': len(unlisted),
    }
    with open(os.path.join(EVDIR, '%s.json' % prop), 'w') as f:
        json.dump(ev, f, indent=1, default=str)
    print('%s: %d obligations, %d hold, %d violated (%d known), %d functions, %d call sites, %.1fs' % (
        prop, n_obl, n_ok, len(viol), len(viol) - len(unlisted), len(rep.analysed['functions']),
        rep.analysed['call_sites'], time.time() - t0))
    if unlisted:
        for i, o in enumerate(unlisted):
            rp = os.path.join(EVDIR, 'replay', '%s-%d.json' % (prop, i))
            with open(rp, 'w') as f:
                json.dump({'property': prop, 'key': vkey(prop, o), **o}, f, indent=1, default=str)
            print('  rule %s instance %s at %s: %s' % (o['rule'], o['instance'], o.get('where'), o['detail']))
            print('VIOLATION property=%s replay=%s' % (prop, rp))
        return 1
    return 0

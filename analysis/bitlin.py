"""Bit-provenance + linear-form analysis of the table-driven / bitwise scalar
multiplications.

Scalar words are vectors of symbolic bits (exp.BV); table indices assembled with
shifts/masks/ors keep the provenance of every bit; a lookup in a bit-linear table with a
symbolic index yields sum_b idx_b * T[2^b]; a branch on a scalar bit is if-converted.
Group elements are linear forms whose atoms are `P` or `P*b<n>` (point times scalar bit).
Loops have constant bounds.  The result must be exactly sum_n 2^n * b_n * P."""
import exp
import roles
from exp import Agg, BV, BitVal, Int, Lin, Opt, RangeIt, Ref, TOP
from facts import callee

NBITS = 256


def scalar_value():
    words = []
    for w in range(4):
        words.append(BV([BitVal(64 * w + i) for i in range(64)]))
    return Agg([Agg(words)])        # FrRepr([u64; 4])


def scalar_value_case(top):
    """The scalar with leading one at bit `top` (bits above are 0, bits below symbolic); top = -1: zero."""
    words = []
    for w in range(4):
        ent = []
        for i in range(64):
            n = 64 * w + i
            ent.append(0 if n > top else (1 if n == top else BitVal(n)))
        words.append(BV(ent))
    return Agg([Agg(words)])


def expected_case(top, point='P'):
    t = {'%s*b%d' % (point, n): 1 << n for n in range(max(top, 0))}
    if top >= 0:
        t[point] = 1 << top
    return Lin(t)


def run_by_leading_one(fx, path, mkargs, result_of, inline=None):
    """Fallback for loops whose trip count depends on the scalar (e.g. `skip_while(|b| !b)`): one run per
    position of the leading one (257 cases, which partition all 256-bit scalars).  Returns (sites, None) when
    every case yields its expected value, else (sites, (top, got, want))."""
    sites = 0
    for top in range(-1, NBITS):
        I, res = run(fx, path, mkargs(scalar_value_case(top)), inline=inline)
        sites += I.call_sites
        got = result_of(res)
        want = expected_case(top)
        if not (isinstance(got, Lin) and got == want):
            return sites, (top, got, want)
    return sites, None


def expected(point='P', nbits=NBITS):
    return Lin({'%s*b%d' % (point, n): 1 << n for n in range(nbits)})


class RevIt:
    def __init__(self, lo, hi):
        self.lo, self.hi = lo, hi

    def iter_next(self, I, where):
        if self.hi > self.lo:
            return Opt('some', Int(self.hi - 1)), RevIt(self.lo, self.hi - 1)
        return Opt('none', TOP), self


class BitSeq:
    def __init__(self, entries, pos=0):
        self.entries, self.pos = entries, pos

    def iter_next(self, I, where):
        if self.pos < len(self.entries):
            e = self.entries[self.pos]
            return Opt('some', Int(e, 1) if e in (0, 1) else e), BitSeq(self.entries, self.pos + 1)
        return Opt('none', TOP), self


def transfer(I, fr, t, c, pth):
    name = c.get('name')
    d = c['def']
    res = c.get('res') or d
    args = t['args']
    dest = t['dest']
    if name == 'num_bits' and c.get('trait') == 'ff::PrimeFieldRepr' and len(args) == 1 and c.get('res_local') and I.facts.body(res) is not None:
        # the derive's bit length (limbs scanned from the top, leading_zeros of each): decided for a scalar whose leading
        # one is known
        try:
            I._inline_call(fr, t, res, pth)
            return True
        except exp.NotDerivable:
            return False
    if d == 'std::iter::Iterator::rev' or res.endswith('Iterator::rev'):
        v = fr.operand(args[0])
        if isinstance(v, RangeIt):
            fr.storev(dest, RevIt(v.cur, v.end))
            return True
        import stdmodel
        return stdmodel.std_transfer(I, fr, t, c, pth)
    if name == 'next' and res.startswith('<std::iter::Rev<'):
        v = fr.deref_operand(args[0])
        if isinstance(v, RevIt):
            if v.hi > v.lo:
                fr.storev(dest, Opt('some', Int(v.hi - 1)))
                fr.store_through(args[0], RevIt(v.lo, v.hi - 1))
            else:
                fr.storev(dest, Opt('none', TOP))
            return True
        if isinstance(v, (exp.SliceIt, exp.AdaptIt)) or hasattr(v, 'iter_next'):
            return False        # a reversed slice / adaptor: the generic iterator model steps it
        raise exp.NotDerivable('reverse loop over a non-constant range', t['span'])
    if 'BitIterator' in d and name == 'new':
        v = fr.operand(args[0])
        if isinstance(v, Ref):
            v = fr._project(fr.store.get(v.root, TOP), v.proj)
        if v is TOP:
            v = fr.deref_operand(args[0])
        words = None
        if isinstance(v, Agg) and len(v.items) == 1 and isinstance(v.items[0], Agg):
            words = v.items[0].items
        elif isinstance(v, Agg):
            words = v.items
        if words and all(isinstance(w, Int) for w in words):
            words = [exp.bv_of_int(w.v) for w in words]
        if words and all(isinstance(w, BV) for w in words):
            ent = []
            for w in reversed(words):
                ent.extend(reversed(w.e))
            fr.storev(dest, BitSeq(ent))
            return True
        return False
    if name in ('skip', 'take') and (d.endswith('Iterator::' + name) or res.endswith('Iterator::' + name)) and len(args) == 2:
        v = fr.operand(args[0])
        n_ = fr.operand(args[1])
        if isinstance(n_, BV) and n_.as_int() is not None:
            n_ = Int(n_.as_int())
        if isinstance(v, BitSeq) and isinstance(n_, Int):
            if name == 'skip':
                fr.storev(dest, BitSeq(v.entries, min(len(v.entries), v.pos + n_.v)))
            else:
                fr.storev(dest, BitSeq(v.entries[:v.pos + n_.v], v.pos))
            return True
        return False
    if name == 'next' and (res.startswith('<ff::BitIterator<') or res.startswith('<std::iter::Skip<') or res.startswith('<std::iter::Take<')):
        v = fr.deref_operand(args[0])
        if isinstance(v, BitSeq):
            if v.pos < len(v.entries):
                e = v.entries[v.pos]
                fr.storev(dest, Opt('some', Int(e, 1) if e in (0, 1) else e))
                fr.store_through(args[0], BitSeq(v.entries, v.pos + 1))
            else:
                fr.storev(dest, Opt('none', TOP))
            return True
        return False
    if res.startswith('std::vec::Vec::<T>::with_capacity') or res.startswith('std::vec::Vec::<T>::new'):
        fr.storev(dest, Agg([], ('vec', 'Vec')))
        return True
    if name in ('truncate', 'clear') and 'std::vec::Vec' in res:
        v = fr.deref_operand(args[0])
        n_ = fr.operand(args[1]) if name == 'truncate' else Int(0)
        if isinstance(v, Agg) and isinstance(n_, Int):
            fr.store_through(args[0], Agg(v.items[:n_.v], v.kind))
            return True
        return False
    if name in ('reserve', 'reserve_exact', 'shrink_to_fit') and 'std::vec::Vec' in res:
        return True
    if name == 'push' and 'std::vec::Vec' in res:
        v = fr.deref_operand(args[0])
        x = fr.operand(args[1])
        if isinstance(v, Agg):
            fr.store_through(args[0], Agg(v.items + [x], v.kind))
            return True
        return False
    if name in ('index', 'index_mut') and 'std::vec::Vec' in res and len(args) == 2:
        tgt = fr.ref_place_of(args[0])
        i = fr.operand(args[1])
        if isinstance(tgt, dict):
            root, proj = fr.root_of(tgt)
        elif isinstance(tgt, tuple):
            root, proj = tgt[1].root, list(tgt[1].proj)
        else:
            return False
        if isinstance(i, BV) and i.as_int() is not None:
            i = Int(i.as_int())
        if isinstance(i, Int):
            fr.storev(dest, Ref(root, list(proj) + [['ci', i.v, 0, False]]))
            return True
        if isinstance(i, BV) and name == 'index':
            table = fr._project(fr.store.get(root, TOP), proj)
            if isinstance(table, Agg):
                val = exp.bv_lookup(table, i)
                key = ('lookup', id(t), len(pth.events))
                fr.store[key] = val
                fr.storev(dest, Ref(key, []))
                return True
        return False
    return False


def run(fx, path, args, inline=None):
    import inline as INL
    user_inline = inline or (lambda p: False)
    I = exp.Interp(fx, 'add', inline=lambda p: user_inline(p) or INL.is_private_helper(fx, p), extra_transfer=transfer, max_steps=2000000)
    I.fork_inlined = True
    res = I.run(path, args)
    return I, res


def table256(point='P'):
    items = []
    for i in range(256):
        k = 0
        for b in range(8):
            if (i >> b) & 1:
                k += 1 << (32 * b)
        items.append(Lin({point: k}) if k else Lin())
    return Agg(items)


def check_precomp_256(fx, p):
    """(interp, problem or None): on every path precomp_256 turns an arbitrary buffer into the subset-sum table; a path
    taken only when the base is the identity may store any multiples of the base ([k]O = O)."""
    import tt
    P = Lin.atom('P')
    I, res = run(fx, p, [('byref', P), ('byref', Agg([Lin.atom('stale%d' % i) for i in range(256)]))])
    kz = ('is_zero', tt.lin_key(P))
    t256 = table256()
    n_general = 0
    for pth, ret, outs in res:
        if isinstance(ret, tuple) and ret and ret[0] == 'diverges':
            return I, 'a path panics (%r)' % (ret[1],)
        lits = tt.path_literals_add(pth)
        other = [l for l in lits if l[0] != kz and not (isinstance(l[0], tuple) and l[0] and l[0][0] == 'infinity')]
        ident = any((l[0] == kz or (isinstance(l[0], tuple) and l[0] and l[0][0] == 'infinity')) and l[1] for l in lits)
        if other:
            return I, 'branches on %r' % (other[0][2],)
        out = outs.get(2)
        if not (isinstance(out, Agg) and len(out.items) == 256):
            return I, 'entry shape is %r (the table contract of the 256-entry methods is violated, e.g. a stale caller-provided value survives)' % (out,)
        for i in range(256):
            x = out.items[i]
            if ident:
                if not (isinstance(x, Lin) and x.atoms() <= {'P'}):
                    return I, 'for the identity base entry %d is %r' % (i, x)
            elif not (isinstance(x, Lin) and x == t256.items[i]):
                return I, 'entry %d is %r (the table contract of the 256-entry methods is violated, e.g. a stale caller-provided value survives)' % (i, x)
        if not ident:
            n_general += 1
    if not n_general:
        return I, 'no path handles a non-identity base'
    return I, None


def rule_scalar_mul(fx, rep, groups):
    P = Lin.atom('P')
    want = expected()
    n = 0
    for g, proj, aff in groups:
        # ---- CurveAffine::mul (double-and-add with mixed additions over all 256 bits)
        p = fx.impl_method('CurveAffine', aff, 'mul')
        if p and fx.body(p):
            rep.fn(p)
            try:
                mb = roles.roles(fx)[g].get('mul_bits')
                I, res = run(fx, p, [('byref', P), scalar_value()], inline=lambda q: q == mb)
                rep.sites(I.call_sites)
                if mb:
                    rep.fn(mb)
                ok = len(res) == 1 and isinstance(res[0][1], Lin) and res[0][1] == want
                n += 1
                rep.check(ok, 'BITLIN', '%s:affine-mul' % g, 'returns sum_n 2^n b_n P over all 256 scalar bits (MSB-first double-and-add, if-converted)',
                          'result is not [k]P: %s' % describe(res[0][1] if res else None, want), fx.fn(p)['span'], construct=p)
            except (exp.NotDerivable, exp.Budget) as e:
                rep.fail('BITLIN', '%s:affine-mul' % g, 'not derivable: %s at %s' % (e, getattr(e, 'where', None)), fx.fn(p)['span'])
        else:
            rep.fail('BITLIN', '%s:affine-mul:anchor' % g, 'CurveAffine::mul not found')
        # ---- precomp_3 produces (2^64, 2^128, 2^192) P
        p = fx.impl_method('CurveAffine', aff, 'precomp_3')
        pre3 = None
        if p and fx.body(p):
            rep.fn(p)
            try:
                I, res = run(fx, p, [('byref', P), ('byref', Agg([TOP, TOP, TOP]))])
                rep.sites(I.call_sites)
                out = res[0][2].get(2) if len(res) == 1 else None
                ok = isinstance(out, Agg) and len(out.items) == 3 and all(isinstance(x, Lin) and x.t == {'P': 1 << (64 * (i + 1))} for i, x in enumerate(out.items))
                n += 1
                rep.check(ok, 'BITLIN', '%s:precomp_3' % g, 'pre = [2^64 P, 2^128 P, 2^192 P]', 'table is %r' % (out,), fx.fn(p)['span'], construct=p)
                if ok:
                    pre3 = out
            except (exp.NotDerivable, exp.Budget) as e:
                rep.fail('BITLIN', '%s:precomp_3' % g, 'not derivable: %s' % e, fx.fn(p)['span'])
        # ---- mul_precomp_3 with that table
        p = fx.impl_method('CurveAffine', aff, 'mul_precomp_3')
        if p and fx.body(p):
            rep.fn(p)
            contract = Agg([Lin({'P': 1 << 64}), Lin({'P': 1 << 128}), Lin({'P': 1 << 192})])
            try:
                I, res = run(fx, p, [('byref', P), scalar_value(), ('byref', contract)])
                rep.sites(I.call_sites)
                ok = len(res) == 1 and isinstance(res[0][1], Lin) and res[0][1] == want
                n += 1
                rep.check(ok, 'BITLIN', '%s:mul_precomp_3' % g, 'with pre = [2^64,2^128,2^192]P returns sum_n 2^n b_n P for every 256-bit scalar (4 interleaved 64-bit words, local 16-entry table bit-linear)',
                          'result is not [k]P: %s' % describe(res[0][1] if res else None, want), fx.fn(p)['span'], construct=p)
            except (exp.NotDerivable, exp.Budget) as e:
                rep.fail('BITLIN', '%s:mul_precomp_3' % g, 'not derivable: %s at %s' % (e, getattr(e, 'where', None)), fx.fn(p)['span'])
        # ---- precomp_256 produces the subset-sum table from an arbitrary buffer
        p = fx.impl_method('CurveAffine', aff, 'precomp_256')
        if p and fx.body(p):
            rep.fn(p)
            try:
                I, why = check_precomp_256(fx, p)
                rep.sites(I.call_sites)
                n += 1
                rep.check(why is None, 'BITLIN', '%s:precomp_256' % g, 'for any initial buffer, pre[i] = sum_{b in i} 2^(32 b) P for all 256 entries (on every path)',
                          why or '', fx.fn(p)['span'], construct=p)
            except (exp.NotDerivable, exp.Budget) as e:
                rep.fail('BITLIN', '%s:precomp_256' % g, 'not derivable: %s at %s' % (e, getattr(e, 'where', None)), fx.fn(p)['span'])
        # ---- mul_precomp_256 with the contract table
        p = fx.impl_method('CurveAffine', aff, 'mul_precomp_256')
        if p and fx.body(p):
            rep.fn(p)
            try:
                I, res = run(fx, p, [('byref', P), scalar_value(), ('byref', table256())])
                rep.sites(I.call_sites)
                ok = len(res) == 1 and isinstance(res[0][1], Lin) and res[0][1] == want
                n += 1
                rep.check(ok, 'BITLIN', '%s:mul_precomp_256' % g, 'with the subset-sum table returns sum_n 2^n b_n P for every 256-bit scalar (8 interleaved 32-bit chunks)',
                          'result is not [k]P: %s' % describe(res[0][1] if res else None, want), fx.fn(p)['span'], construct=p)
            except (exp.NotDerivable, exp.Budget) as e:
                rep.fail('BITLIN', '%s:mul_precomp_256' % g, 'not derivable: %s at %s' % (e, getattr(e, 'where', None)), fx.fn(p)['span'])
    rep.floor('BITLIN', 'scalar-multiplication-paths', n, 10)


def describe(got, want):
    if not isinstance(got, Lin):
        return 'value is %r' % (got,)
    miss = [a for a in want.t if got.t.get(a) != want.t[a]]
    extra = [a for a in got.t if a not in want.t]
    out = []
    if miss:
        out.append('scalar bits with missing/wrong weight: %s' % sorted(int(a.split('*b')[1]) for a in miss)[:8])
    if extra:
        out.append('unexpected terms %s' % extra[:4])
    return '; '.join(out) or 'differs'


def rule_projective_mul(fx, rep, groups):
    """CurveProjective::mul_assign (MSB-first double-and-add that skips leading zeros via a
    `found_one` flag): the flag is tracked as an OR of scalar bits and branches on it are
    if-converted using b_k * or(S) = b_k for k in S."""
    P = Lin.atom('P')
    want = expected()
    n = 0
    for g, proj, aff in groups:
        p = fx.impl_method('CurveProjective', proj, 'mul_assign')
        if not (p and fx.body(p)):
            rep.fail('BITLIN', '%s:projective-mul_assign:anchor' % g, 'not found')
            continue
        rep.fn(p)
        try:
            I, res = run(fx, p, [('byref', P), scalar_value()])
            rep.sites(I.call_sites)
            out = res[0][2].get(1) if len(res) == 1 else None
            ok = isinstance(out, Lin) and out == want
            n += 1
            rep.check(ok, 'BITLIN', '%s:projective-mul_assign' % g, 'self becomes sum_n 2^n b_n P for every 256-bit scalar (leading-zero skipping included)',
                      'result is not [k]P: %s' % describe(out, want), fx.fn(p)['span'], construct=p)
        except (exp.NotDerivable, exp.Budget) as e:
            try:
                sites, bad = run_by_leading_one(fx, p, lambda sv: [('byref', P), sv], lambda res: res[0][2].get(1) if len(res) == 1 else None)
                rep.sites(sites)
                n += 1
                rep.check(bad is None, 'BITLIN', '%s:projective-mul_assign' % g, 'self becomes sum_n 2^n b_n P for every 256-bit scalar (decided per position of the leading one: 257 cases)',
                          'result is not [k]P when the leading one is bit %s: %s' % (bad[0], describe(bad[1], bad[2])) if bad else '', fx.fn(p)['span'], construct=p)
            except (exp.NotDerivable, exp.Budget) as e2:
                rep.fail('BITLIN', '%s:projective-mul_assign' % g, 'not derivable: %s at %s' % (e2, getattr(e2, 'where', None)), fx.fn(p)['span'])
    rep.floor('BITLIN', 'projective-mul-paths', n, 2)


def rule_wnaf_table(fx, rep):
    """wnaf_table(table, base, w): for w = 2..8 the table is exactly the odd multiples
    [1, 3, ..., 2^w - 1] * base (2^(w-1) entries), whatever the buffer held before."""
    p = roles.roles(fx)['wnaf'].get('table')
    if fx.body(p) is None:
        rep.fail('BITLIN', 'wnaf_table:anchor', 'not found')
        return
    rep.fn(p)
    bad = []
    for w in range(2, 9):
        try:
            I, res = run(fx, p, [('byref', Agg([Lin.atom('stale0'), Lin.atom('stale1')], ('vec', 'Vec'))), Lin.atom('P'), Int(w)],)
        except (exp.NotDerivable, exp.Budget) as e:
            bad.append('w=%d: not derivable: %s' % (w, e))
            continue
        rep.sites(I.call_sites)
        # every path: the general one yields exactly the odd multiples; a path taken only for the identity (an is_zero
        # test of the base answered true) may hold any multiples of the base, [k]O = O, in a table of the same length
        import tt
        kz = ('is_zero', tt.lin_key(Lin.atom('P')))
        ngen = 0
        for pth_, ret_, outs_ in res:
            if isinstance(ret_, tuple) and ret_ and ret_[0] == 'diverges':
                bad.append('w=%d: a path panics' % w)
                continue
            out = outs_.get(1)
            lits = tt.path_literals_add(pth_)
            if [l for l in lits if l[0] != kz]:
                bad.append('w=%d: the table depends on %r' % (w, [l[2] for l in lits if l[0] != kz][0]))
                continue
            ident = any(l[0] == kz and l[1] for l in lits)
            if ident:
                ok = isinstance(out, Agg) and len(out.items) == (1 << (w - 1)) and all(isinstance(x, Lin) and set(x.t) <= {'P'} for x in out.items)
            else:
                ngen += 1
                ok = isinstance(out, Agg) and len(out.items) == (1 << (w - 1)) and all(isinstance(x, Lin) and x.t == {'P': 2 * i + 1} for i, x in enumerate(out.items))
            if not ok:
                bad.append('w=%d: table is %r%s' % (w, out.items[:4] if isinstance(out, Agg) else out, ' for the identity' if ident else ''))
        if not ngen:
            bad.append('w=%d: no path handles a non-identity base' % w)
    rep.check(not bad, 'BITLIN', 'wnaf_table:odd-multiples', 'for w = 2..8 and any previous buffer contents: table = [(2i+1) P for i < 2^(w-1)]', '; '.join(bad[:3]), fx.fn(p)['span'], construct=p)


class Digit:
    """A wNAF digit: 0, +(2m+1) or -(2m+1) with m a symbolic non-negative integer."""
    def __init__(self, sign, m):
        self.sign, self.m = sign, m

    def __repr__(self):
        return 'digit(%s%s)' % ('+' if self.sign > 0 else '-' if self.sign < 0 else '0', self.m)


class HalfIdx:
    """(2m+1)/2 = m as a table index."""
    def __init__(self, m):
        self.m = m


def rule_wnaf_exp(fx, rep):
    """wnaf_exp(table, digits) with the table contract table[m] = (2m+1) P: for every digit
    string of length <= 3 and every sign pattern (digits symbolic), the result is
    sum_j 2^j n_j P."""
    import itertools
    p = roles.roles(fx)['wnaf'].get('exp')
    if fx.body(p) is None:
        rep.fail('BITLIN', 'wnaf_exp:anchor', 'not found')
        return
    rep.fn(p)
    bad = []
    n_scen = 0
    for L in range(0, 4):
        for signs in itertools.product((0, 1, -1), repeat=L):
            digits = [Digit(sg, 'm%d' % j) for j, sg in enumerate(signs)]

            def hook(op, a, b):
                if isinstance(a, Digit) and isinstance(b, Int) and b.v == 0:
                    if op == 'Ne':
                        return Int(int(a.sign != 0), 1)
                    if op == 'Eq':
                        return Int(int(a.sign == 0), 1)
                    if op == 'Gt':
                        return Int(int(a.sign > 0), 1)
                    if op == 'Lt':
                        return Int(int(a.sign < 0), 1)
                    if op == 'Ge':
                        return Int(int(a.sign >= 0), 1)
                    if op == 'Le':
                        return Int(int(a.sign <= 0), 1)
                if isinstance(a, HalfIdx) and b == ('table-len',) and op in ('Lt', 'Le'):
                    # the digit belongs to the window the table was built for (the contract under which plain
                    # indexing does not panic either)
                    return Int(1, 1)
                if a == ('table-len',) and isinstance(b, HalfIdx) and op in ('Gt', 'Ge'):
                    return Int(1, 1)
                if isinstance(a, Digit) and b is None and op == 'Neg':
                    return Digit(-a.sign, a.m)
                if isinstance(a, Digit) and isinstance(b, Int) and b.v == 2 and op == 'Div' and a.sign > 0:
                    return HalfIdx(a.m)
                if isinstance(a, Digit) and isinstance(b, Int) and op in ('Eq', 'Ne', 'BitAnd') and a.sign != 0:
                    # overflow / parity probes on an odd non-zero digit
                    if op == 'Eq':
                        return Int(0, 1)     # e.g. n == i64::MIN or n == -1 guards of checked div/neg
                    if op == 'Ne':
                        return Int(1, 1)
                return None

            def tr(I, fr, t, c, pth):
                nm = c.get('name')
                res_ = c.get('res') or c['def']
                args = t['args']
                # comparisons / sign queries on a symbolic odd digit of known sign
                if c.get('trait') in ('std::cmp::Ord', 'std::cmp::PartialOrd') and nm in ('cmp', 'partial_cmp') and len(args) == 2:
                    a_ = fr.deref_operand(args[0])
                    b_ = fr.deref_operand(args[1])
                    if isinstance(a_, Digit) and isinstance(b_, Int) and b_.v == 0:
                        o_ = Agg([], ('std::cmp::Ordering', 'Greater' if a_.sign > 0 else ('Less' if a_.sign < 0 else 'Equal')))
                        fr.storev(t['dest'], o_ if nm == 'cmp' else Opt('some', o_))
                        return True
                if (c['def'].startswith('core::num::<impl i64>::') or c['def'].startswith('std::num::<impl i64>::')) and args:
                    a_ = fr.operand(args[0])
                    m_ = c['def'].rsplit('::', 1)[-1]
                    if isinstance(a_, Digit):
                        if m_ == 'signum':
                            fr.storev(t['dest'], Int(a_.sign & ((1 << 64) - 1) if a_.sign < 0 else a_.sign))
                            return True
                        if m_ in ('is_positive', 'is_negative'):
                            fr.storev(t['dest'], Int(int(a_.sign > 0 if m_ == 'is_positive' else a_.sign < 0), 1))
                            return True
                        if m_ in ('abs', 'wrapping_abs', 'unsigned_abs'):
                            fr.storev(t['dest'], Digit(abs(a_.sign), a_.m))
                            return True
                if nm == 'len' and len(args) == 1:
                    v = fr.deref_operand(args[0])
                    for _ in range(3):
                        if isinstance(v, exp.Ref):
                            v = fr._project(fr.store.get(v.root, TOP), v.proj)
                    if isinstance(v, TableContract):
                        fr.storev(t['dest'], ('table-len',))
                        return True
                if nm == 'rev' and c.get('trait') == 'std::iter::Iterator':
                    v = fr.operand(args[0])
                    if isinstance(v, exp.SliceIt):
                        fr.storev(t['dest'], exp.SliceIt(list(reversed(v.items[v.pos:])), 0))
                        return True
                if nm == 'next' and res_.startswith('<std::iter::Rev<'):
                    v = fr.deref_operand(args[0])
                    if isinstance(v, exp.SliceIt):
                        val, nit = I._iter_next(v, t['span'])
                        fr.storev(t['dest'], val)
                        fr.store_through(args[0], nit)
                        return True
                if nm == 'iter' and res_.startswith('core::slice::<impl [T]>::iter'):
                    v = I.value_of_ref(fr, args[0])
                    if isinstance(v, Agg):
                        fr.storev(t['dest'], exp.SliceIt(v.items, 0))
                        return True
                if c.get('trait') == 'std::ops::Div' and nm == 'div':
                    a = fr.deref_operand(args[0])
                    b_ = fr.operand(args[1])
                    hv = hook('Div', a, b_)
                    if hv is not None:
                        fr.storev(t['dest'], hv)
                        return True
                if c.get('trait') == 'std::ops::Neg' and nm == 'neg':
                    a = fr.deref_operand(args[0])
                    hv = hook('Neg', a, None)
                    if hv is not None:
                        fr.storev(t['dest'], hv)
                        return True
                return transfer(I, fr, t, c, pth)
            import inline as INL
            I = exp.Interp(fx, 'add', extra_transfer=tr, inline=lambda q_: INL.is_private_helper(fx, q_) and q_ != p)
            I.fork_inlined = True
            I.binop_hook = hook
            I.propagate_hooks = True

            def sw_hook(fr, t, dv, pth):
                # `match n { 0 => .., .. }` on a digit of known sign class
                if isinstance(dv, Digit):
                    zero_edges = [bb for v_, bb in t['targets'] if v_ == 0]
                    if dv.sign == 0 and zero_edges:
                        return zero_edges[0]
                    if dv.sign != 0 and all(v_ == 0 for v_, _bb in t['targets']):
                        return t['otherwise']
                return None
            I.switch_hook = sw_hook
            # table lookups with HalfIdx: done through Frame projection -> patch: supply the table as a dict-like Agg
            table = TableContract()
            try:
                res = I.run(p, [('byref', table), ('byref', Agg(digits))])
            except (exp.NotDerivable, exp.Budget) as e:
                bad.append('digits %r: not derivable: %s at %s' % (signs, e, getattr(e, 'where', None)))
                continue
            rep.sites(I.call_sites)
            n_scen += 1
            want = Lin()
            for j, sg in enumerate(signs):
                if sg:
                    want = want.add(Lin({'P*m%d' % j: 2 * sg * (1 << j), 'P': sg * (1 << j)}))
            got = res[0][1] if len(res) == 1 else None
            if not (isinstance(got, Lin) and got == want):
                bad.append('digits %r: result %r, expected %r' % (signs, got, want))
    rep.check(not bad and n_scen == 40, 'BITLIN', 'wnaf_exp:signed-digit-evaluation',
              'for every digit string of length <= 3 and every sign pattern, with symbolic odd digits and the table contract table[m] = (2m+1)P: result = sum_j 2^j n_j P',
              '; '.join(bad[:3]), fx.fn(p)['span'], construct=p)


class TableContract(Agg):
    """Abstract odd-multiples table: indexing with m yields (2m+1) P."""
    def __init__(self):
        Agg.__init__(self, [])

    def lookup_contract(self, iv):
        if isinstance(iv, HalfIdx):
            return Lin({'P*%s' % iv.m: 2, 'P': 1})
        return TOP

"""Def-use, reference resolution and small constant propagation over MIR bodies."""
from facts import op_place, op_const, place_key, callee, fmt_place


class Defs:
    """Definition sites of every local of a body.

    defs[l] = list of ('assign', bb, idx, stmt) | ('call', bb, term) for assignments to
    the *whole* local; partial[l] = writes through a projection of l (field stores etc.);
    borrowed_mut[l] = True if `&mut l...` is ever taken."""

    def __init__(self, body):
        self.body = body
        n = len(body.locals)
        self.defs = [[] for _ in range(n)]
        self.partial = [[] for _ in range(n)]
        self.mut_borrows = [[] for _ in range(n)]
        reach = body.reachable()
        for bi, b in enumerate(body.blocks):
            if bi not in reach:
                continue
            for si, s in enumerate(b['stmts']):
                if s['k'] == 'assign':
                    p = s['place']
                    if not p['p']:
                        self.defs[p['l']].append(('assign', bi, si, s))
                    else:
                        self.partial[p['l']].append(('assign', bi, si, s))
                    rv = s['rv']
                    if rv['k'] in ('ref', 'rawptr') and (rv.get('mut') or rv['k'] == 'rawptr'):
                        self.mut_borrows[rv['place']['l']].append((bi, si, s))
                elif s['k'] == 'setdiscr':
                    self.partial[s['place']['l']].append(('setdiscr', bi, si, s))
            t = b['term']
            if t['k'] == 'call':
                p = t['dest']
                if not p['p']:
                    self.defs[p['l']].append(('call', bi, t))
                else:
                    self.partial[p['l']].append(('call', bi, t))

    def single(self, l):
        d = self.defs[l]
        if len(d) == 1:
            return d[0]
        return None


class Resolver:
    def __init__(self, body):
        self.body = body
        self.d = Defs(body)

    # ---- reference temporaries ------------------------------------------------
    def ref_target(self, l, depth=0):
        """If local l is a (single-assignment) reference temp `l = &place` / copy/move of
        such, or a pointer coercion of one, return the referent place (normalised);
        else None."""
        if depth > 12:
            return None
        d = self.d.single(l)
        if d is None or d[0] != 'assign':
            return None
        if self.d.mut_borrows[l]:
            # `let mut r = &x; f(&mut r)`: the reference variable itself can be redirected through the borrow
            # (slice readers advance this way), so it is not a stable alias of its initial referent
            return None
        rv = d[3]['rv']
        if rv['k'] in ('ref', 'rawptr'):
            return self.norm_place(rv['place'], depth + 1)
        if rv['k'] == 'use':
            p = op_place(rv['op'])
            if p is not None and not p['p']:
                return self.ref_target(p['l'], depth + 1)
        if rv['k'] == 'cast' and rv['kind'].startswith('PointerCoercion'):
            p = op_place(rv['op'])
            if p is not None and not p['p']:
                return self.ref_target(p['l'], depth + 1)
        return None

    def norm_place(self, p, depth=0):
        """Rewrite leading `(*tmp)` where tmp is a resolvable reference temp."""
        proj = list(p['p'])
        base = p['l']
        while proj and proj[0][0] == 'deref':
            tgt = self.ref_target(base, depth + 1)
            if tgt is None:
                break
            base = tgt['l']
            proj = list(tgt['p']) + proj[1:]
        return {'l': base, 'p': proj}

    def operand_referent(self, op):
        """For an operand that is a reference (argument of a call), the place it points
        to, or the constant it points to: returns ('place', place) | ('const', cdict, proj) | None."""
        p = op_place(op)
        if p is None:
            c = op_const(op)
            if c is not None:
                return ('const', c, [])
            return None
        if p['p']:
            np_ = self.norm_place(p)
            return ('placeval', np_)
        tgt = self.ref_target(p['l'])
        if tgt is not None:
            # referent rooted at a const-holding local (promoted)?
            c = self.local_const(tgt['l'])
            if c is not None:
                return ('const', c, tgt['p'])
            return ('place', tgt)
        c = self.local_const(p['l'])
        if c is not None:
            return ('const', c, [])
        return None

    # ---- constants --------------------------------------------------------------
    def local_const(self, l, depth=0):
        """Constant held by a single-assignment local (through copies), else None."""
        if depth > 12:
            return None
        d = self.d.single(l)
        if d is None or d[0] != 'assign' or self.d.partial[l] or self.d.mut_borrows[l]:
            return None
        rv = d[3]['rv']
        if rv['k'] == 'use':
            c = op_const(rv['op'])
            if c is not None:
                return c
            p = op_place(rv['op'])
            if p is not None and not p['p']:
                return self.local_const(p['l'], depth + 1)
        return None

    def operand_const(self, op):
        c = op_const(op)
        if c is not None:
            return c
        p = op_place(op)
        if p is not None and not p['p']:
            return self.local_const(p['l'])
        return None

    def operand_int(self, op):
        c = self.operand_const(op)
        if c is None:
            return None
        v = c.get('v')
        if isinstance(v, bool):
            return int(v)
        if isinstance(v, int):
            return v
        return None

    def local_def_rv(self, l):
        d = self.d.single(l)
        if d is None or d[0] != 'assign':
            return None
        return d[3]['rv']

    def local_def_call(self, l):
        d = self.d.single(l)
        if d is None or d[0] != 'call':
            return None
        return d[2]


def const_payload(c):
    """Decoded value of a constant operand dict, looking through a top-level reference."""
    v = c.get('v')
    while isinstance(v, dict) and 'ref' in v and len(v) == 1:
        v = v['ref']
    return v


def project_value(v, proj, index_env=None):
    """Apply MIR projections to a decoded constant value."""
    for e in proj:
        if e[0] == 'deref':
            while isinstance(v, dict) and 'ref' in v and len(v) == 1:
                v = v['ref']
        elif e[0] == 'f':
            if isinstance(v, dict) and 'fields' in v:
                keys = list(v['fields'].keys())
                v = v['fields'][keys[e[1]]]
            elif isinstance(v, list):
                v = v[e[1]]
            else:
                return None
        elif e[0] == 'ci':
            if not isinstance(v, list):
                return None
            v = v[-e[1]] if e[3] else v[e[1]]
        elif e[0] == 'i':
            if index_env is None or e[1] not in index_env or not isinstance(v, list):
                return None
            v = v[index_env[e[1]]]
        else:
            return None
    return v


def value_equal(a, b):
    return a == b


def find_named_const_by_value(facts, v):
    """Names of the crate's const items whose evaluated value equals v."""
    out = []
    for p, c in facts.consts.items():
        if 'v' in c and c['v'] == v:
            out.append(p)
    return out


def call_args_referents(res, term):
    return [res.operand_referent(a) for a in term['args']]

"""Arithmetic on *constants* extracted from the compiled crate (never on program inputs).

The oracle side starts from the single BLS12-381 parameter x = -0xd201000000010000 and
the curve family's polynomials; every number the repository hard-codes is compared with
something derived here or characterised completely (e.g. "the four 4th roots of unity").
"""
from math import gcd

X = -0xd201000000010000                 # BLS parameter (specification input)
R_ORDER = X**4 - X**2 + 1               # r(x)
Q = (X - 1)**2 * R_ORDER // 3 + X       # q(x)
assert ((X - 1)**2 * R_ORDER) % 3 == 0
TRACE = X + 1                           # trace of Frobenius of E/Fq
N1 = Q + 1 - TRACE                      # #E(Fq)
H1 = (X - 1)**2 // 3                    # G1 cofactor
assert N1 == H1 * R_ORDER

MONT_R_Q = pow(2, 384, Q)
MONT_R_R = pow(2, 256, R_ORDER)


def isqrt(n):
    if n < 0:
        raise ValueError
    if n == 0:
        return 0
    x = 1 << ((n.bit_length() + 1) // 2)
    while True:
        y = (x + n // x) // 2
        if y >= x:
            return x
        x = y


# CM: t^2 - 4q = -3 f^2
_F = isqrt((4 * Q - TRACE**2) // 3)
assert TRACE**2 - 4 * Q == -3 * _F**2
F_CM = _F
# over Fq2
T2 = TRACE**2 - 2 * Q
_F2 = isqrt((4 * Q * Q - T2**2) // 3)
assert T2**2 - 4 * Q * Q == -3 * _F2**2
F2_CM = _F2
H2 = (X**8 - 4 * X**7 + 5 * X**6 - 4 * X**4 + 6 * X**3 - 4 * X**2 - 4 * X + 13) // 9
assert (X**8 - 4 * X**7 + 5 * X**6 - 4 * X**4 + 6 * X**3 - 4 * X**2 - 4 * X + 13) % 9 == 0
TWIST_ORDERS_FQ2 = sorted(set([
    Q * Q + 1 - T2, Q * Q + 1 + T2,
    Q * Q + 1 - (T2 + 3 * F2_CM) // 2, Q * Q + 1 + (T2 + 3 * F2_CM) // 2,
    Q * Q + 1 - (T2 - 3 * F2_CM) // 2, Q * Q + 1 + (T2 - 3 * F2_CM) // 2,
]))
N2 = H2 * R_ORDER
H2_EFF = 3 * (X * X - 1) * H2            # RFC 9380 h_eff for G2
H1_EFF = 1 - X                           # = 0xd201000000010001


def limbs_to_int(limbs):
    v = 0
    for i, l in enumerate(limbs):
        v |= l << (64 * i)
    return v


def fq_from_mont(limbs):
    return limbs_to_int(limbs) * pow(MONT_R_Q, -1, Q) % Q


def fr_from_mont(limbs):
    return limbs_to_int(limbs) * pow(MONT_R_R, -1, R_ORDER) % R_ORDER


# ---------------------------------------------------------------- decoding of fact values
def dec_repr(v):
    """FqRepr / FrRepr JSON value -> list of limbs."""
    if isinstance(v, dict) and 'fields' in v:
        return v['fields']['0']
    return v


def dec_fq(v):
    """Fq JSON value (Montgomery limbs) -> canonical integer."""
    assert v['adt'].endswith('fq::Fq'), v['adt']
    return fq_from_mont(dec_repr(v['fields']['0']))


def dec_fr(v):
    assert v['adt'].endswith('fr::Fr'), v['adt']
    return fr_from_mont(dec_repr(v['fields']['0']))


def dec_fq2(v):
    assert v['adt'].endswith('fq2::Fq2'), v['adt']
    return F2(dec_fq(v['fields']['c0']), dec_fq(v['fields']['c1']))


def dec_field(v):
    """Fq or Fq2 JSON value -> F1 / F2."""
    if v['adt'].endswith('fq2::Fq2'):
        return dec_fq2(v)
    return F1(dec_fq(v))


# ---------------------------------------------------------------- fields
class F1:
    __slots__ = ('v',)
    deg = 1

    def __init__(self, v):
        self.v = v % Q

    def __add__(self, o): return F1(self.v + o.v)
    def __sub__(self, o): return F1(self.v - o.v)
    def __mul__(self, o): return F1(self.v * o.v)
    def __neg__(self): return F1(-self.v)
    def __eq__(self, o): return isinstance(o, F1) and self.v == o.v
    def __hash__(self): return hash(('F1', self.v))
    def inv(self): return F1(pow(self.v, -1, Q))
    def is_zero(self): return self.v == 0
    def zero(self): return F1(0)
    def one(self): return F1(1)
    def from_int(self, n): return F1(n)
    def __repr__(self): return 'F1(%#x)' % self.v

    def __pow__(self, e):
        return F1(pow(self.v, e, Q))

    def is_square(self):
        return self.v == 0 or pow(self.v, (Q - 1) // 2, Q) == 1


class F2:
    """Fq[u]/(u^2+1)"""
    __slots__ = ('a', 'b')
    deg = 2

    def __init__(self, a, b=0):
        self.a = a % Q
        self.b = b % Q

    def __add__(self, o): return F2(self.a + o.a, self.b + o.b)
    def __sub__(self, o): return F2(self.a - o.a, self.b - o.b)
    def __neg__(self): return F2(-self.a, -self.b)
    def __mul__(self, o): return F2(self.a * o.a - self.b * o.b, self.a * o.b + self.b * o.a)
    def __eq__(self, o): return isinstance(o, F2) and self.a == o.a and self.b == o.b
    def __hash__(self): return hash(('F2', self.a, self.b))
    def is_zero(self): return self.a == 0 and self.b == 0
    def zero(self): return F2(0, 0)
    def one(self): return F2(1, 0)
    def from_int(self, n): return F2(n, 0)
    def __repr__(self): return 'F2(%#x, %#x)' % (self.a, self.b)

    def inv(self):
        n = pow(self.a * self.a + self.b * self.b, -1, Q)
        return F2(self.a * n, -self.b * n)

    def __pow__(self, e):
        if e < 0:
            return self.inv() ** (-e)
        r = F2(1, 0)
        b = self
        while e:
            if e & 1:
                r = r * b
            b = b * b
            e >>= 1
        return r

    def norm(self):
        return (self.a * self.a + self.b * self.b) % Q

    def is_square(self):
        n = self.norm()
        return n == 0 or pow(n, (Q - 1) // 2, Q) == 1

    def frob(self):
        return F2(self.a, -self.b)


# ---------------------------------------------------------------- polynomials (dense, low->high)
def ptrim(p):
    while p and p[-1].is_zero():
        p = p[:-1]
    return p


def padd(a, b, zero):
    n = max(len(a), len(b))
    out = []
    for i in range(n):
        x = a[i] if i < len(a) else zero
        y = b[i] if i < len(b) else zero
        out.append(x + y)
    return ptrim(out)


def psub(a, b, zero):
    return padd(a, [-x for x in b], zero)


def pmul(a, b, zero):
    if not a or not b:
        return []
    out = [zero] * (len(a) + len(b) - 1)
    for i, x in enumerate(a):
        if x.is_zero():
            continue
        for j, y in enumerate(b):
            out[i + j] = out[i + j] + x * y
    return ptrim(out)


def ppow(a, n, zero, one):
    r = [one]
    for _ in range(n):
        r = pmul(r, a, zero)
    return r


def pdeg(a):
    return len(ptrim(a)) - 1


def pderiv(a, zero):
    out = []
    for i in range(1, len(a)):
        out.append(a[i] * zero.from_int(i))
    return ptrim(out)


def pdivmod(a, b, zero):
    a = list(ptrim(a))
    b = ptrim(b)
    if not b:
        raise ZeroDivisionError
    q = [zero] * max(0, len(a) - len(b) + 1)
    inv = b[-1].inv()
    while len(a) >= len(b) and a:
        c = a[-1] * inv
        s = len(a) - len(b)
        q[s] = c
        for i, y in enumerate(b):
            a[s + i] = a[s + i] - c * y
        a = ptrim(a)
    return ptrim(q), a


def pgcd(a, b, zero):
    a, b = ptrim(a), ptrim(b)
    while b:
        _, r = pdivmod(a, b, zero)
        a, b = b, r
    return a


# ---------------------------------------------------------------- short Weierstrass, constant points
class Curve:
    """y^2 = x^3 + a x + b over F1 or F2; points are None (identity) or (x, y)."""

    def __init__(self, a, b):
        self.a = a
        self.b = b

    def on_curve(self, P):
        if P is None:
            return True
        x, y = P
        return y * y == x * x * x + self.a * x + self.b

    def neg(self, P):
        if P is None:
            return None
        return (P[0], -P[1])

    def add(self, P, Qp):
        if P is None:
            return Qp
        if Qp is None:
            return P
        x1, y1 = P
        x2, y2 = Qp
        if x1 == x2:
            if (y1 + y2).is_zero():
                return None
            three = x1.from_int(3)
            two = x1.from_int(2)
            lam = (three * x1 * x1 + self.a) * (two * y1).inv()
        else:
            lam = (y2 - y1) * (x2 - x1).inv()
        x3 = lam * lam - x1 - x2
        y3 = lam * (x1 - x3) - y1
        return (x3, y3)

    def mul(self, k, P):
        if k < 0:
            return self.mul(-k, self.neg(P))
        R = None
        for bit in bin(k)[2:] if k else '':
            R = self.add(R, R)
            if bit == '1':
                R = self.add(R, P)
        return R


E1 = Curve(F1(0), F1(4))
E2 = Curve(F2(0, 0), F2(4, 4))

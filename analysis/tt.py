"""Truth tables over path sets.

The interpreter returns one result per path; every fork carries a label (the predicate that was
tested, as a term) and the direction taken.  A rule that states *what is returned for which
combination of predicate values* is independent of how the code arranges its tests (early returns,
`a || b`, `match`, a boolean expression returned directly): for every assignment of truth values to
the recognised predicates exactly one path must be consistent with it, and its (possibly symbolic
boolean) result is evaluated under the assignment."""
import itertools

from exp import Int, Lin


def strip_not(x):
    neg = False
    while isinstance(x, tuple) and x and x[0] == 'not':
        neg = not neg
        x = x[1]
    return x, neg


def canon(term):
    """(key, negated) of a predicate term; key ignores source positions.  None if not a predicate term."""
    x, neg = strip_not(term)
    if not isinstance(x, tuple) or not x:
        return (x, neg) if isinstance(x, str) else (None, neg)
    nm = x[0]
    if nm == 'is_zero':
        v = x[1]
        if isinstance(v, Lin) and len(v.t) == 1 and list(v.t.values()) == [1]:
            import exp
            d = exp.OPAQUE_DEFS.get(list(v.t)[0])
            if d is not None and d[0] == 'sub_assign':
                # a - b == 0 is the comparison a == b
                return ('eq',) + tuple(sorted([_k(d[1]), _k(d[2])], key=repr)), neg
        return ('is_zero', _k(x[1])), neg
    if nm in ('eq', 'ne'):
        a, b = _k(x[1]), _k(x[2])
        key = ('eq',) + tuple(sorted([a, b], key=repr))
        return key, (neg != (nm == 'ne'))
    if nm == 'infinity':
        return ('infinity',), neg
    return (nm,) + tuple(_k(y) for y in x[1:] if not (isinstance(y, str) and y.startswith('src/'))), neg


def _k(v):
    if isinstance(v, Lin):
        return ('lin', tuple(sorted(v.t.items())))
    if isinstance(v, (list, tuple)):
        return tuple(_k(y) for y in v)
    if isinstance(v, Int):
        return ('int', v.v)
    return repr(v) if not isinstance(v, (str, int, bool, type(None))) else v


def lin_key(l):
    return _k(l)


def eq_key(a, b):
    return ('eq',) + tuple(sorted([_k(a), _k(b)], key=repr))


def path_literals(pth):
    out = []
    for lab, taken in pth.labels:
        key, neg = canon(lab)
        t = (taken != 0)      # boolean switches: value 0 = false edge, 'otherwise' = true edge
        if neg:
            t = not t
        out.append((key, t, lab))
    return out


def path_literals_add(pth):
    """path_literals for values of the additive (elliptic-curve) domain: there the empty linear form is the identity, so
    a comparison `v == identity` is the identity test of v"""
    out = []
    for key, t, lab in path_literals(pth):
        if isinstance(key, tuple) and len(key) == 3 and key[0] == 'eq':
            a, b = key[1], key[2]
            if a == ('lin', ()) and isinstance(b, tuple) and b and b[0] == 'lin' and b[1]:
                key = ('is_zero', b)
            elif b == ('lin', ()) and isinstance(a, tuple) and a and a[0] == 'lin' and a[1]:
                key = ('is_zero', a)
        out.append((key, t, lab))
    return out


def value_under(ret, env):
    """Truth value of a path's return value under env (dict key -> bool); None if undecided."""
    if isinstance(ret, Int):
        return bool(ret.v)
    if isinstance(ret, tuple) and ret and ret[0] == 'bool':
        return term_under(ret[1], env)
    return None


def term_under(term, env):
    """Truth value of a boolean term: a predicate, its negation, or the (in)equality of two terms"""
    x, neg = strip_not(term)
    if isinstance(x, tuple) and len(x) == 3 and x[0] in ('beq', 'bne'):
        a, b = term_under(x[1], env), term_under(x[2], env)
        if a is None or b is None:
            return None
        return ((a == b) == (x[0] == 'beq')) != neg
    key, neg2 = canon(term)
    if key in env:
        return env[key] != neg2
    return None


def term_keys(term):
    x, _neg = strip_not(term)
    if isinstance(x, tuple) and len(x) == 3 and x[0] in ('beq', 'bne'):
        return term_keys(x[1]) + term_keys(x[2])
    return [canon(term)[0]]


def predicates(results):
    """All predicate keys mentioned by labels or symbolic boolean results."""
    keys = []
    for pth, ret, _ in results:
        for key, t, lab in path_literals(pth):
            if key not in keys:
                keys.append(key)
        if isinstance(ret, tuple) and ret and ret[0] == 'bool':
            for key in term_keys(ret[1]):
                if key not in keys:
                    keys.append(key)
    return keys


def table(results, keys):
    """For every assignment of the given predicate keys: list of (path, return value) consistent with it."""
    for vals in itertools.product([False, True], repeat=len(keys)):
        env = dict(zip(keys, vals))
        cons = []
        for pth, ret, outs in results:
            ok = True
            for key, t, lab in path_literals(pth):
                if key in env and t is not None and env[key] != t:
                    ok = False
                    break
            if ok:
                cons.append((pth, ret, outs))
        yield env, cons
